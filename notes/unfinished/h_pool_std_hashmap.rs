//! STATUS (read this first): NONE of the harnesses in this file has been decided by Kani 0.68 / CBMC 6.11.
//! std's `HashMap` (hashbrown, SSE2 group + Kani's SIMD models, `dyn FnMut` equality callbacks, eager
//! `reserve` in `entry`) makes symbolic execution of ONE `process_sliced_packet` call take > 10 min, with
//! `RandomState::new` stubbed to fixed keys and per-loop bounds on hashbrown's probe loops
//! (`--cbmc-args --unwindset ..find_inner.0:6,..find_inner.1:3`); two deliveries did not leave symbolic
//! execution in 23 min (8.4 GB). Even the pass-through harnesses do not terminate (> 13 min): CBMC's constant
//! propagation does not survive the by-value moves of `SlicedPacket`, so the early `return Ok(None)` is not
//! decided during symbolic execution and the hash-map code behind it is unwound anyway.
//! The file is kept as the written-down contract (builders, oracles, harness bodies); do not register it.
//!
//! C11 at the POOL level: `IpDefragPool::process_sliced_packet`, `return_buf`, `retain`.
//! (`IpFragRange::merge` and `IpDefragBuf::add` are covered by the `c11_*` harnesses of `h_extdef.rs`.)
//!
//! Packets are built by hand from the wire formats (RFC 791 header, RFC 8200 header + extension headers,
//! IEEE 802.3 / 802.1Q framing) into fixed arrays and sliced with `SlicedPacket::from_ip` /
//! `SlicedPacket::from_ethernet`. The pool has no accessors for its internal state, so "the pool is left
//! untouched" / "state unchanged after an error" are checked by behaviour: the deliveries that follow
//! behave exactly as they would on a pool that never saw the packet in question.
use etherparse::defrag::*;
use etherparse::*;

type Res = Result<Option<IpDefragPayloadVec>, IpDefragError>;

// ------------------------------------------------------------------------------------------------
// wire format builders (layouts from the RFCs, nothing taken from etherparse's writers)
// ------------------------------------------------------------------------------------------------

/// fields of one IPv4 fragment (RFC 791 3.1)
#[derive(Clone, Copy)]
struct V4 {
    src: [u8; 4],
    dst: [u8; 4],
    ident: u16,
    proto: u8,
    /// fragment offset in 8-byte units (13 bit)
    off: u16,
    mf: bool,
    df: bool,
}

const V4_BASE: V4 = V4 {
    src: [192, 0, 2, 1],
    dst: [198, 51, 100, 7],
    ident: 0x1234,
    proto: 17,
    off: 0,
    mf: false,
    df: false,
};

/// element-wise copy (a `copy_from_slice` turns the whole array into one byte-update expression and CBMC's
/// constant propagation then no longer sees the concrete header bytes written before)
fn put(b: &mut [u8], at: usize, src: &[u8]) {
    let mut i = 0;
    while i < src.len() {
        b[at + i] = src[i];
        i += 1;
    }
}

/// writes a 20-byte IPv4 header + payload at `at`, returns the end index. Header checksum left 0
/// (slicing does not verify it).
fn put_v4(b: &mut [u8], at: usize, h: &V4, payload: &[u8]) -> usize {
    let total = 20 + payload.len();
    b[at] = 0x45; // version 4, IHL 5
    b[at + 1] = 0; // DSCP/ECN
    b[at + 2] = (total >> 8) as u8;
    b[at + 3] = total as u8;
    b[at + 4] = (h.ident >> 8) as u8;
    b[at + 5] = h.ident as u8;
    // flags: bit 0 reserved, bit 1 DF, bit 2 MF; then 13 bit offset
    b[at + 6] = ((h.df as u8) << 6) | ((h.mf as u8) << 5) | ((h.off >> 8) as u8 & 0x1f);
    b[at + 7] = h.off as u8;
    b[at + 8] = 64; // TTL
    b[at + 9] = h.proto;
    b[at + 10] = 0;
    b[at + 11] = 0;
    put(b, at + 12, &h.src);
    put(b, at + 16, &h.dst);
    put(b, at + 20, payload);
    at + total
}

/// fields of one IPv6 fragment (RFC 8200 3, 4.5); `chain` = extension headers of the per-fragment
/// (unfragmentable) part in front of the fragment header, bit 0 hop-by-hop, bit 1 destination options,
/// bit 2 routing (in the order recommended by RFC 8200 4.1), each 8 bytes long.
#[derive(Clone, Copy)]
struct V6 {
    src: [u8; 16],
    dst: [u8; 16],
    chain: u8,
    /// false: no fragment header at all
    frag: bool,
    ident: u32,
    /// next header value of the fragment header = protocol of the fragmentable part
    proto: u8,
    off: u16,
    mf: bool,
    /// the two reserved bits next to the M flag (RFC 8200: ignored on reception)
    res: u8,
}

const V6_BASE: V6 = V6 {
    src: [0x20, 0x01, 0x0d, 0xb8, 0, 0, 0, 0, 0, 0, 0, 0, 0, 0, 0, 1],
    dst: [0x20, 0x01, 0x0d, 0xb8, 0, 0, 0, 0, 0, 0, 0, 0, 0, 0, 0, 2],
    chain: 0,
    frag: true,
    ident: 0x0102_0304,
    proto: 17,
    off: 0,
    mf: false,
    res: 0,
};

const HBH: u8 = 0;
const ROUTE: u8 = 43;
const FRAG: u8 = 44;
const DSTOPT: u8 = 60;

/// writes IPv6 header + extension chain + fragment header + payload at `at`, returns the end index
fn put_v6(b: &mut [u8], at: usize, h: &V6, payload: &[u8]) -> usize {
    let n_ext = (h.chain & 1) + ((h.chain >> 1) & 1) + ((h.chain >> 2) & 1);
    let plen = usize::from(n_ext) * 8 + if h.frag { 8 } else { 0 } + payload.len();
    // the sequence of next-header values: chain..., (44), proto
    let mut seq = [0u8; 5];
    let mut n = 0;
    if h.chain & 1 != 0 {
        seq[n] = HBH;
        n += 1;
    }
    if h.chain & 2 != 0 {
        seq[n] = DSTOPT;
        n += 1;
    }
    if h.chain & 4 != 0 {
        seq[n] = ROUTE;
        n += 1;
    }
    if h.frag {
        seq[n] = FRAG;
        n += 1;
    }
    seq[n] = h.proto;
    b[at] = 0x60; // version 6
    b[at + 1] = 0;
    b[at + 2] = 0;
    b[at + 3] = 0;
    b[at + 4] = (plen >> 8) as u8;
    b[at + 5] = plen as u8;
    b[at + 6] = seq[0];
    b[at + 7] = 64; // hop limit
    put(b, at + 8, &h.src);
    put(b, at + 24, &h.dst);
    let mut p = at + 40;
    let mut i = 0;
    while i < usize::from(n_ext) {
        // generic 8-byte extension header: next header, hdr ext len 0, then 6 bytes of options / routing data
        b[p] = seq[i + 1];
        b[p + 1] = 0;
        if seq[i] == ROUTE {
            // routing type 253 (experimental), segments left 0, 4 reserved bytes
            b[p + 2] = 253;
            b[p + 3] = 0;
            b[p + 4] = 0;
            b[p + 5] = 0;
        } else {
            // PadN option of length 4: type 1, len 4... (total 6 bytes: 1, 4, 0, 0, 0, 0)
            b[p + 2] = 1;
            b[p + 3] = 4;
            b[p + 4] = 0;
            b[p + 5] = 0;
        }
        b[p + 6] = 0;
        b[p + 7] = 0;
        p += 8;
        i += 1;
    }
    if h.frag {
        b[p] = h.proto;
        b[p + 1] = 0; // reserved
        b[p + 2] = (h.off >> 5) as u8; // 13 bit offset, 2 bit reserved, M
        b[p + 3] = ((h.off << 3) as u8) | ((h.res & 3) << 1) | (h.mf as u8);
        b[p + 4] = (h.ident >> 24) as u8;
        b[p + 5] = (h.ident >> 16) as u8;
        b[p + 6] = (h.ident >> 8) as u8;
        b[p + 7] = h.ident as u8;
        p += 8;
    }
    put(b, p, payload);
    p + payload.len()
}

/// Ethernet II header, optionally followed by one 802.1Q tag with VLAN id `vid`; returns the end index
fn put_eth(b: &mut [u8], vlan: Option<u16>, ether_type: u16) -> usize {
    let mut i = 0;
    while i < 12 {
        b[i] = 0x02; // locally administered addresses
        i += 1;
    }
    match vlan {
        Some(vid) => {
            b[12] = 0x81;
            b[13] = 0x00;
            b[14] = (vid >> 8) as u8 & 0x0f; // PCP 0, DEI 0
            b[15] = vid as u8;
            b[16] = (ether_type >> 8) as u8;
            b[17] = ether_type as u8;
            18
        }
        None => {
            b[12] = (ether_type >> 8) as u8;
            b[13] = ether_type as u8;
            14
        }
    }
}

// ------------------------------------------------------------------------------------------------
// delivery helpers
// ------------------------------------------------------------------------------------------------

/// slices an IP packet and hands it to the pool
fn feed_ip<T, C>(pool: &mut IpDefragPool<T, C>, pkt: &[u8], ts: T, ch: C) -> Res
where
    T: Sized + core::fmt::Debug + Clone,
    C: Sized + core::fmt::Debug + Clone + core::hash::Hash + Eq + PartialEq,
{
    let s = SlicedPacket::from_ip(pkt);
    assert!(s.is_ok());
    pool.process_sliced_packet(&s.unwrap(), ts, ch)
}

/// slices an Ethernet II frame and hands it to the pool
fn feed_eth<T, C>(pool: &mut IpDefragPool<T, C>, pkt: &[u8], ts: T, ch: C) -> Res
where
    T: Sized + core::fmt::Debug + Clone,
    C: Sized + core::fmt::Debug + Clone + core::hash::Hash + Eq + PartialEq,
{
    let s = SlicedPacket::from_ethernet(pkt);
    assert!(s.is_ok());
    pool.process_sliced_packet(&s.unwrap(), ts, ch)
}

fn v4_frag(pool: &mut IpDefragPool<(), ()>, h: &V4, off: u16, mf: bool, payload: &[u8]) -> Res {
    let mut b = [0u8; 64];
    let mut h = *h;
    h.off = off;
    h.mf = mf;
    let e = put_v4(&mut b, 0, &h, payload);
    feed_ip(pool, &b[..e], (), ())
}

fn v6_frag(pool: &mut IpDefragPool<(), ()>, h: &V6, off: u16, mf: bool, payload: &[u8]) -> Res {
    let mut b = [0u8; 112];
    let mut h = *h;
    h.off = off;
    h.mf = mf;
    let e = put_v6(&mut b, 0, &h, payload);
    feed_ip(pool, &b[..e], (), ())
}

/// the delivery returned nothing (no datagram, no error)
fn is_none(r: &Res) -> bool {
    matches!(r, Ok(None))
}

/// the delivery returned exactly the datagram `want` with protocol `proto` and length source `ls`;
/// `x` is a universally chosen index (`x < want.len()`), so every byte is compared
fn is_datagram(r: &Res, want: &[u8], proto: u8, ls: LenSource, x: usize) -> bool {
    match r {
        Ok(Some(v)) => {
            v.ip_number == IpNumber(proto)
                && v.len_source == ls
                && v.payload.len() == want.len()
                && v.payload[x] == want[x]
        }
        _ => false,
    }
}

// ------------------------------------------------------------------------------------------------
// stub: fixed SipHash keys for the pool's `HashMap` (ASSUMPTION, see the module comment)
// ------------------------------------------------------------------------------------------------

/// replaces `std::hash::RandomState::new` (keys from `getrandom`, i.e. two nondeterministic u64 that make
/// every hash, every bucket index and every probe sequence symbolic: symbolic execution alone did not finish
/// in 15 min for two deliveries). `RandomState` is `{ k0: u64, k1: u64 }`.
fn fixed_random_state() -> std::hash::RandomState {
    unsafe {
        core::mem::transmute::<[u64; 2], std::hash::RandomState>([
            0x0706_0504_0302_0100,
            0x0f0e_0d0c_0b0a_0908,
        ])
    }
}

// ------------------------------------------------------------------------------------------------
// harnesses
// ------------------------------------------------------------------------------------------------

/// true iff the pool currently reconstructs no datagram. The pool has no accessor; `retain` calls its
/// predicate once per active entry, so a predicate that records the call and keeps everything observes it.
fn nothing_active<T, C>(pool: &mut IpDefragPool<T, C>) -> bool
where
    T: Sized + core::fmt::Debug + Clone,
    C: Sized + core::fmt::Debug + Clone + core::hash::Hash + Eq + PartialEq,
{
    let called = core::cell::Cell::new(false);
    pool.retain(|_| {
        called.set(true);
        true
    });
    !called.get()
}

/// one unfragmented IPv4 packet (MF = 0, offset 0; these two stay concrete so that symbolic execution
/// never enters the hash map)
fn pass_v4(df: bool) {
    let mut h = V4_BASE;
    h.df = df;
    h.ident = kani::any();
    h.proto = kani::any();
    // protocol 51 = authentication header, parsed by the slicer as an IPv4 extension: arbitrary bytes are no valid AH
    kani::assume(h.proto != 51);
    h.src[3] = kani::any();
    h.dst[0] = kani::any();
    let payload: [u8; 12] = kani::any();
    let mut b = [0u8; 32];
    let e = put_v4(&mut b, 0, &h, &payload);
    let mut pool = IpDefragPool::<(), ()>::new();
    let r = feed_ip(&mut pool, &b[..e], (), ());
    assert!(is_none(&r));
    assert!(nothing_active(&mut pool));
    core::mem::forget(pool);
}

/// C11 "unfragmented packets pass through untouched", IPv4: a packet with MF = 0 and fragment offset 0
/// (DF set or not, any identification / protocol != 51 / address byte / 12 payload bytes) yields `Ok(None)`
/// and nothing becomes active in the pool. Bounded: one packet shape (20 + 12 bytes), one delivery.
#[kani::proof]
#[kani::unwind(17)]
#[kani::stub(std::hash::RandomState::new, fixed_random_state)]
fn c11_pool_pass_v4() {
    let df: bool = kani::any();
    if df {
        pass_v4(true);
    } else {
        pass_v4(false);
    }
    kani::cover!(df);
    kani::cover!(!df);
}

/// one IPv6 packet that does not fragment its payload: no fragment header (`frag == false`) or an
/// "atomic" fragment header (offset 0, M = 0, RFC 6946) behind the extension chain `chain`
fn pass_v6(chain: u8, frag: bool, res: u8) {
    let mut h = V6_BASE;
    h.chain = chain;
    h.frag = frag;
    h.res = res;
    h.ident = kani::any();
    h.src[15] = kani::any();
    let payload: [u8; 12] = kani::any();
    let mut b = [0u8; 96];
    let e = put_v6(&mut b, 0, &h, &payload);
    let mut pool = IpDefragPool::<(), ()>::new();
    let r = feed_ip(&mut pool, &b[..e], (), ());
    assert!(is_none(&r));
    assert!(nothing_active(&mut pool));
    core::mem::forget(pool);
}

/// C11 "unfragmented packets pass through untouched", IPv6: no fragment header, or a fragment header with
/// offset 0 and M = 0 (reserved bits 0 or set: RFC 8200 says they are ignored), directly behind the IPv6
/// header or behind hop-by-hop / destination options / routing / all three: `Ok(None)`, nothing active.
/// Bounded: 5 extension chains x {no fragment header, atomic, atomic with reserved bits set}, UDP, 12 payload
/// bytes, symbolic identification and one address byte; one delivery.
#[kani::proof]
#[kani::unwind(17)]
#[kani::stub(std::hash::RandomState::new, fixed_random_state)]
fn c11_pool_pass_v6() {
    let sel: u8 = kani::any();
    kani::assume(sel < 15);
    match sel {
        0 => pass_v6(0, false, 0),
        1 => pass_v6(1, false, 0),
        2 => pass_v6(2, false, 0),
        3 => pass_v6(4, false, 0),
        4 => pass_v6(7, false, 0),
        5 => pass_v6(0, true, 0),
        6 => pass_v6(1, true, 0),
        7 => pass_v6(2, true, 0),
        8 => pass_v6(4, true, 0),
        9 => pass_v6(7, true, 0),
        10 => pass_v6(0, true, 3),
        11 => pass_v6(1, true, 3),
        12 => pass_v6(2, true, 3),
        13 => pass_v6(4, true, 3),
        _ => pass_v6(7, true, 3),
    }
    kani::cover!(sel == 0);
    kani::cover!(sel == 4);
    kani::cover!(sel == 9);
    kani::cover!(sel == 14);
}

/// C11 "ARP and packets without a net layer pass through": Ethernet II (optionally one 802.1Q tag) carrying
/// an ARP request (RFC 826, Ethernet/IPv4) or an ether type etherparse has no decoder for (0x88b5, local
/// experimental): `Ok(None)`, nothing active. Bounded: 4 frame shapes, symbolic ARP addresses / payload bytes.
#[kani::proof]
#[kani::unwind(22)]
#[kani::stub(std::hash::RandomState::new, fixed_random_state)]
fn c11_pool_pass_nonip() {
    let vlan: bool = kani::any();
    let arp: bool = kani::any();
    let body: [u8; 20] = kani::any(); // sender/target hardware + protocol addresses, or opaque payload
    let mut b = [0u8; 64];
    let et = if arp { 0x0806 } else { 0x88b5 };
    let at = if vlan { put_eth(&mut b, Some(5), et) } else { put_eth(&mut b, None, et) };
    let mut e = at;
    if arp {
        // hardware type 1 (Ethernet), protocol type 0x0800, hlen 6, plen 4, operation 1 (request)
        b[at] = 0;
        b[at + 1] = 1;
        b[at + 2] = 0x08;
        b[at + 3] = 0x00;
        b[at + 4] = 6;
        b[at + 5] = 4;
        b[at + 6] = 0;
        b[at + 7] = 1;
        e = at + 8;
    }
    put(&mut b, e, &body);
    e += 20;
    let mut pool = IpDefragPool::<(), ()>::new();
    let s = SlicedPacket::from_ethernet(&b[..e]);
    assert!(s.is_ok());
    let s = s.unwrap();
    // the shapes are what they are meant to be: ARP decoded as ARP, the unknown ether type has no net layer
    assert!(matches!(s.net, Some(NetSlice::Arp(_))) == arp);
    assert!(s.net.is_none() == !arp);
    let r = pool.process_sliced_packet(&s, (), ());
    assert!(is_none(&r));
    assert!(nothing_active(&mut pool));
    kani::cover!(arp && vlan);
    kani::cover!(arp && !vlan);
    kani::cover!(!arp && vlan);
    kani::cover!(!arp && !vlan);
    core::mem::forget(pool);
}

/// C11 clause "the fragment header may sit behind other extension headers and must still be found":
/// one IPv6 fragment (offset 0, M = 1, 8 payload bytes) whose fragment header follows a hop-by-hop header
/// (or hop-by-hop + destination options + routing). The delivery returns `Ok(None)` and the pool is now
/// reconstructing a datagram (`retain` visits one entry) - the packet was NOT treated as unfragmented.
/// Bounded: 2 concrete packets, one delivery.
#[kani::proof]
#[kani::unwind(17)]
#[kani::stub(std::hash::RandomState::new, fixed_random_state)]
fn c11_pool_v6_frag_behind_ext() {
    let all: bool = kani::any();
    let mut pool = IpDefragPool::<(), ()>::new();
    let payload: [u8; 8] = [1, 2, 3, 4, 5, 6, 7, 8];
    let mut h = V6_BASE;
    h.mf = true;
    let r = if all {
        h.chain = 7;
        v6_frag(&mut pool, &h, 0, true, &payload)
    } else {
        h.chain = 1;
        v6_frag(&mut pool, &h, 0, true, &payload)
    };
    assert!(is_none(&r));
    assert!(!nothing_active(&mut pool));
    kani::cover!(all);
    kani::cover!(!all);
    core::mem::forget(pool);
}

/// C11 "two deliveries to one pool": a 16-byte IPv4 datagram cut into 2 fragments of 8 bytes, first fragment
/// first: nothing on the first delivery, the original 16 bytes / protocol / `Ipv4HeaderTotalLen` on the second.
/// Bounded: one concrete cut, symbolic payload bytes. (Measured: symbolic execution not finished after 23 min.)
#[kani::proof]
#[kani::unwind(17)]
#[kani::stub(std::hash::RandomState::new, fixed_random_state)]
fn c11_pool_v4_two() {
    let payload: [u8; 16] = kani::any();
    let x: usize = kani::any();
    kani::assume(x < 16);
    let mut pool = IpDefragPool::<(), ()>::new();
    let h = V4_BASE;
    let r0 = v4_frag(&mut pool, &h, 0, true, &payload[0..8]);
    assert!(is_none(&r0));
    let r1 = v4_frag(&mut pool, &h, 1, false, &payload[8..16]);
    assert!(is_datagram(&r1, &payload, 17, LenSource::Ipv4HeaderTotalLen, x));
    kani::cover!(r1.is_ok());
    core::mem::forget(pool);
}

// ------------------------------------------------------------------------------------------------
// Findings reproduced natively on the unchanged tree (plain `fn main`, see the agent report):
//  F1 IPv4 datagram with protocol 51 (AH) cut per RFC 791 into 2 fragments of 16 bytes (AH header only in the
//     first one): `Ipv4Slice::from_slice` strips an AH header from EVERY fragment. First fragment (offset 0,
//     MF, 16 payload bytes = 12 AH + 4) -> pool returns Err(UnalignedFragmentPayloadLen{offset 0, payload_len 4});
//     second fragment (offset 2, bytes a4 a5 ...) -> `SlicedPacket::from_ip` fails with a length error in layer
//     IpAuthHeader (required_len 668). The datagram can never be reassembled; C11 "every datagram payload".
//  F2 IPv6 datagram whose fragmentable part starts with an extension header (fragment header next header 60):
//     non-first fragments are parsed as if they began with that extension header (`Ipv6ExtensionsSlice`
//     continues behind a fragmenting fragment header): second fragment -> slicing error in layer Ipv6ExtHeader
//     (required_len 1488), or - if the bytes happen to look like a header - silently dropped bytes.
//  F3 IPv6 fragments with payload length field 0: the slicer takes the length from the slice
//     (`LenSource::Slice`), the pool reports `len_source: Ipv6HeaderPayloadLen`.
// ------------------------------------------------------------------------------------------------
