//! DRAFT wire-format specification (design phase).  Written from the RFCs / IEEE layouts and the property
//! statements C03, C05, C07 — not from the code.  Every per-layer `from_slice` gets `ensures lift(r) == w_x(slice@)`.
//!
//! Conventions: `b` is the byte sequence handed to the layer; offsets are relative to `b`;
//! `WErr.offset` is the start of the failing layer relative to `b` (layer_start_offset).
#[allow(unused_imports)]
use vstd::prelude::*;
use crate::{err::Layer, LenSource};

verus! {

pub open spec fn be16(b: Seq<u8>, i: int) -> int { b[i] as int * 256 + b[i + 1] as int }
pub open spec fn be32(b: Seq<u8>, i: int) -> int { ((b[i] as int * 256 + b[i + 1] as int) * 256 + b[i + 2] as int) * 256 + b[i + 3] as int }

/// length fault as the property C07 states it
pub ghost struct WErr {
    pub required_len: int,
    pub len: int,
    pub len_source: LenSource,
    pub layer: Layer,
    pub offset: int,
}

/// content faults (the offending value really present in the bytes)
pub ghost enum WContent {
    IpUnsupportedVersion { version_number: u8 },
    Ipv4UnexpectedVersion { version_number: u8 },
    Ipv4IhlTooSmall { ihl: u8 },
    Ipv6UnexpectedVersion { version_number: u8 },
    HopByHopNotAtStart,
    AuthZeroPayloadLen,
    TcpDataOffsetTooSmall { data_offset: u8 },
    MacsecUnexpectedVersion,
    MacsecInvalidUnmodifiedShortLen,
    SllUnsupportedPacketType { packet_type: u16 },
    SllUnsupportedArpHardwareId { arp_hardware_type: u16 },
}

pub ghost enum WFault { Len(WErr), Content(WContent) }

pub open spec fn too_short(b: Seq<u8>, need: int, layer: Layer) -> WFault {
    WFault::Len(WErr { required_len: need, len: b.len() as int, len_source: LenSource::Slice, layer, offset: 0 })
}

// ------------------------------------------------------------------------------------------------
// link layer
// ------------------------------------------------------------------------------------------------

/// Ethernet II: 14 byte header, ether type at 12, payload = rest (no FCS)
pub open spec fn w_eth2(b: Seq<u8>) -> Result<(int /*ether type*/, int /*payload start*/), WFault> {
    if b.len() < 14 { Err(too_short(b, 14, Layer::Ethernet2Header)) } else { Ok((be16(b, 12), 14)) }
}

/// 802.1Q tag: pcp(3) dei(1) vid(12) ether_type(16)
pub open spec fn w_vlan(b: Seq<u8>) -> Result<(int, int), WFault> {
    if b.len() < 4 { Err(too_short(b, 4, Layer::VlanHeader)) } else { Ok((be16(b, 2), 4)) }
}
pub open spec fn w_vlan_pcp(b: Seq<u8>) -> int { (b[0] as int) / 32 }
pub open spec fn w_vlan_dei(b: Seq<u8>) -> bool { ((b[0] as int) / 16) % 2 == 1 }
pub open spec fn w_vlan_id(b: Seq<u8>) -> int { ((b[0] as int) % 16) * 256 + b[1] as int }

pub open spec fn is_vlan_ether_type(t: int) -> bool { t == 0x8100 || t == 0x88a8 || t == 0x9100 }
pub spec const ET_MACSEC: int = 0x88e5;
pub spec const ET_ARP: int = 0x0806;
pub spec const ET_IPV4: int = 0x0800;
pub spec const ET_IPV6: int = 0x86dd;

/// MACsec SecTAG (IEEE 802.1AE): tci_an, short_len, pn(4), [sci(8)], then for an unmodified payload the ether type
pub ghost struct WMacsec {
    pub header_len: int,            // 6 + 8*sci + 2*unmodified
    pub unmodified: bool,           // E and C bit both clear
    pub next_ether_type: int,       // only meaningful if unmodified
    pub payload_start: int,
    pub payload_end: int,
    pub len_source: LenSource,
    pub incomplete: bool,           // lax only
}
pub open spec fn macsec_sci(b: Seq<u8>) -> bool { ((b[0] as int) / 32) % 2 == 1 }
pub open spec fn macsec_unmodified(b: Seq<u8>) -> bool { ((b[0] as int) / 4) % 4 == 0 }
pub open spec fn macsec_short_len(b: Seq<u8>) -> int { (b[1] as int) % 64 }
pub open spec fn macsec_header_len(b: Seq<u8>) -> int { 6 + (if macsec_sci(b) { 8int } else { 0 }) + (if macsec_unmodified(b) { 2int } else { 0 }) }
/// payload length announced by the short length field (None = unknown / up to the end)
pub open spec fn macsec_expected_payload(b: Seq<u8>) -> Option<int> {
    let sl = macsec_short_len(b);
    if sl == 0 { None } else if !macsec_unmodified(b) { Some(sl) } else if sl < 2 { None } else { Some(sl - 2) }
}
pub open spec fn w_macsec_header(b: Seq<u8>) -> Result<int /*header_len*/, WFault> {
    if b.len() < 6 { Err(too_short(b, 6, Layer::MacsecHeader)) }
    else if (b[0] as int) / 128 == 1 { Err(WFault::Content(WContent::MacsecUnexpectedVersion)) }
    else if macsec_unmodified(b) && macsec_short_len(b) == 1 { Err(WFault::Content(WContent::MacsecInvalidUnmodifiedShortLen)) }
    else if b.len() < macsec_header_len(b) { Err(too_short(b, macsec_header_len(b), Layer::MacsecHeader)) }
    else { Ok(macsec_header_len(b)) }
}
pub open spec fn w_macsec(b: Seq<u8>, lax: bool) -> Result<WMacsec, WFault> {
    match w_macsec_header(b) {
        Err(f) => Err(f),
        Ok(h) => {
            let unmod = macsec_unmodified(b);
            let et = if unmod { be16(b, h - 2) } else { 0 };
            match macsec_expected_payload(b) {
                None => Ok(WMacsec { header_len: h, unmodified: unmod, next_ether_type: et, payload_start: h, payload_end: b.len() as int, len_source: LenSource::Slice, incomplete: false }),
                Some(p) =>
                    if h + p <= b.len() {
                        Ok(WMacsec { header_len: h, unmodified: unmod, next_ether_type: et, payload_start: h, payload_end: h + p, len_source: LenSource::MacsecShortLength, incomplete: false })
                    } else if lax {
                        Ok(WMacsec { header_len: h, unmodified: unmod, next_ether_type: et, payload_start: h, payload_end: b.len() as int, len_source: LenSource::Slice, incomplete: true })
                    } else {
                        Err(WFault::Len(WErr { required_len: h + p, len: b.len() as int, len_source: LenSource::MacsecShortLength, layer: Layer::MacsecPacket, offset: 0 }))
                    },
            }
        }
    }
}

/// Linux cooked capture v1 (16 bytes): packet type(2) arphrd(2) addr len(2) addr(8) protocol(2)
pub open spec fn sll_hw_supported(hw: int) -> bool { hw == 824 /*NETLINK*/ || hw == 778 /*IPGRE*/ || hw == 803 /*RADIOTAP*/ || hw == 770 /*FRAD*/ || hw == 1 /*ETHERNET*/ }
pub open spec fn w_sll(b: Seq<u8>) -> Result<(int /*hw*/, int /*protocol*/, int /*payload start*/), WFault> {
    if b.len() < 16 { Err(too_short(b, 16, Layer::LinuxSllHeader)) }
    else if be16(b, 0) > 7 { Err(WFault::Content(WContent::SllUnsupportedPacketType { packet_type: be16(b, 0) as u16 })) }
    else if !sll_hw_supported(be16(b, 2)) { Err(WFault::Content(WContent::SllUnsupportedArpHardwareId { arp_hardware_type: be16(b, 2) as u16 })) }
    else { Ok((be16(b, 2), be16(b, 14), 16)) }
}

// ------------------------------------------------------------------------------------------------
// ARP (RFC 826): htype ptype hlen plen oper, then 2*(hlen+plen) address bytes
// ------------------------------------------------------------------------------------------------
pub open spec fn arp_len(b: Seq<u8>) -> int { 8 + 2 * (b[4] as int) + 2 * (b[5] as int) }
pub open spec fn w_arp(b: Seq<u8>) -> Result<int /*packet len*/, WFault> {
    if b.len() < 8 { Err(too_short(b, 8, Layer::Arp)) }
    // C07: `len` is what the slice offers, so the honest source is `Slice` (the pinned code says ArpAddrLengths: finding D5)
    else if b.len() < arp_len(b) { Err(too_short(b, arp_len(b), Layer::Arp)) }
    else { Ok(arp_len(b)) }
}

// ------------------------------------------------------------------------------------------------
// IP extension headers
// ------------------------------------------------------------------------------------------------
pub spec const IPN_HBH: int = 0;
pub spec const IPN_ROUTE: int = 43;
pub spec const IPN_FRAG: int = 44;
pub spec const IPN_AUTH: int = 51;
pub spec const IPN_DEST: int = 60;
pub open spec fn is_ext(n: int) -> bool { n == IPN_HBH || n == IPN_ROUTE || n == IPN_FRAG || n == IPN_AUTH || n == IPN_DEST }

pub open spec fn raw_ext_len(b: Seq<u8>) -> int { (b[1] as int + 1) * 8 }
pub open spec fn auth_len(b: Seq<u8>) -> int { (b[1] as int + 2) * 4 }

/// one extension header of kind n at the start of b: Ok(len) or the fault (offset 0)
pub open spec fn w_ext_header(n: int, b: Seq<u8>) -> Result<int, WFault> {
    if n == IPN_FRAG {
        if b.len() < 8 { Err(too_short(b, 8, Layer::Ipv6FragHeader)) } else { Ok(8) }
    } else if n == IPN_AUTH {
        if b.len() < 12 { Err(too_short(b, 12, Layer::IpAuthHeader)) }
        else if b[1] == 0 { Err(WFault::Content(WContent::AuthZeroPayloadLen)) }
        else if b.len() < auth_len(b) { Err(too_short(b, auth_len(b), Layer::IpAuthHeader)) }
        else { Ok(auth_len(b)) }
    } else {
        if b.len() < 8 { Err(too_short(b, 8, Layer::Ipv6ExtHeader)) }
        else if b.len() < raw_ext_len(b) { Err(too_short(b, raw_ext_len(b), Layer::Ipv6ExtHeader)) }
        else { Ok(raw_ext_len(b)) }
    }
}
pub open spec fn frag_is_fragmenting(b: Seq<u8>) -> bool { be16(b, 2) / 8 != 0 || (b[3] as int) % 2 == 1 }

pub ghost struct WChain { pub consumed: int, pub next: int, pub fragmented: bool, pub fault: Option<WFault> }

pub open spec fn shift_fault(f: WFault, by: int) -> WFault {
    match f { WFault::Len(e) => WFault::Len(WErr { offset: e.offset + by, ..e }), c => c }
}

/// RFC 8200 chain walk over b starting with kind `n`; `first` = we are directly behind the IPv6 header.
/// Stops at the first non-extension number (Ok) or at the first fault; `consumed` counts only complete headers.
pub open spec fn w_ext_chain(n: int, b: Seq<u8>, first: bool) -> WChain
    decreases b.len()
{
    if !is_ext(n) { WChain { consumed: 0, next: n, fragmented: false, fault: None } }
    else if n == IPN_HBH && !first { WChain { consumed: 0, next: n, fragmented: false, fault: Some(WFault::Content(WContent::HopByHopNotAtStart)) } }
    else {
        match w_ext_header(n, b) {
            Err(f) => WChain { consumed: 0, next: n, fragmented: false, fault: Some(f) },
            Ok(l) => {
                if l <= 0 || l > b.len() { WChain { consumed: 0, next: n, fragmented: false, fault: None } } else {
                let t = w_ext_chain(b[0] as int, b.subrange(l, b.len() as int), false);
                WChain {
                    consumed: l + t.consumed,
                    next: t.next,
                    fragmented: t.fragmented || (n == IPN_FRAG && frag_is_fragmenting(b)),
                    fault: match t.fault { None => None, Some(f) => Some(shift_fault(f, l)) },
                } }
            }
        }
    }
}

// ------------------------------------------------------------------------------------------------
// IPv4 (RFC 791) incl. authentication header (RFC 4302)
// ------------------------------------------------------------------------------------------------
pub ghost struct WIp {
    pub version: int,
    pub header_len: int,
    pub exts_len: int,
    pub payload_start: int,
    pub payload_end: int,
    pub ip_number: int,
    pub fragmented: bool,
    pub len_source: LenSource,
    pub incomplete: bool,               // lax only
    pub stop: Option<WFault>,           // lax only: fault inside the extension headers
}

pub open spec fn ipv4_ihl(b: Seq<u8>) -> int { (b[0] as int) % 16 }
pub open spec fn ipv4_total_len(b: Seq<u8>) -> int { be16(b, 2) }
pub open spec fn ipv4_fragmenting(b: Seq<u8>) -> bool { ((b[6] as int) / 32) % 2 == 1 || ((b[6] as int) % 32) * 256 + b[7] as int != 0 }

pub open spec fn w_ipv4_header(b: Seq<u8>) -> Result<int, WFault> {
    if b.len() < 20 { Err(too_short(b, 20, Layer::Ipv4Header)) }
    else if (b[0] as int) / 16 != 4 { Err(WFault::Content(WContent::Ipv4UnexpectedVersion { version_number: ((b[0] as int) / 16) as u8 })) }
    else if ipv4_ihl(b) < 5 { Err(WFault::Content(WContent::Ipv4IhlTooSmall { ihl: ipv4_ihl(b) as u8 })) }
    else if b.len() < ipv4_ihl(b) * 4 { Err(too_short(b, ipv4_ihl(b) * 4, Layer::Ipv4Header)) }
    else { Ok(ipv4_ihl(b) * 4) }
}

pub open spec fn w_ipv4(b: Seq<u8>, lax: bool) -> Result<WIp, WFault> {
    match w_ipv4_header(b) {
        Err(f) => Err(f),
        Ok(h) => {
            let tl = ipv4_total_len(b);
            // range the header's payload may use, and who limited it
            let bad_tl = tl < h;
            let cut = tl > b.len();
            if !lax && bad_tl { Err(WFault::Len(WErr { required_len: h, len: tl, len_source: LenSource::Ipv4HeaderTotalLen, layer: Layer::Ipv4Packet, offset: 0 })) }
            else if !lax && cut { Err(WFault::Len(WErr { required_len: tl, len: b.len() as int, len_source: LenSource::Slice, layer: Layer::Ipv4Packet, offset: 0 })) }
            else {
                let end = if bad_tl || cut { b.len() as int } else { tl };
                let src = if bad_tl || cut { LenSource::Slice } else { LenSource::Ipv4HeaderTotalLen };
                let inc = !bad_tl && cut;
                let proto = b[9] as int;
                let frag = ipv4_fragmenting(b);
                if proto != IPN_AUTH {
                    Ok(WIp { version: 4, header_len: h, exts_len: 0, payload_start: h, payload_end: end, ip_number: proto, fragmented: frag, len_source: src, incomplete: inc, stop: None })
                } else {
                    let rest = b.subrange(h, end);
                    match w_ext_header(IPN_AUTH, rest) {
                        Ok(a) => Ok(WIp { version: 4, header_len: h, exts_len: a, payload_start: h + a, payload_end: end, ip_number: rest[0] as int, fragmented: frag, len_source: src, incomplete: inc, stop: None }),
                        Err(f) => {
                            // the data available to the AH was limited by `src`
                            let f2 = match shift_fault(f, h) { WFault::Len(e) => WFault::Len(WErr { len_source: src, ..e }), c => c };
                            if lax { Ok(WIp { version: 4, header_len: h, exts_len: 0, payload_start: h, payload_end: end, ip_number: IPN_AUTH, fragmented: frag, len_source: src, incomplete: inc, stop: Some(f2) }) }
                            else { Err(f2) }
                        }
                    }
                }
            }
        }
    }
}

// ------------------------------------------------------------------------------------------------
// IPv6 (RFC 8200)
// ------------------------------------------------------------------------------------------------
pub open spec fn ipv6_payload_length(b: Seq<u8>) -> int { be16(b, 4) }

pub open spec fn w_ipv6_header(b: Seq<u8>) -> Result<int, WFault> {
    if b.len() < 40 { Err(too_short(b, 40, Layer::Ipv6Header)) }
    else if (b[0] as int) / 16 != 6 { Err(WFault::Content(WContent::Ipv6UnexpectedVersion { version_number: ((b[0] as int) / 16) as u8 })) }
    else { Ok(40) }
}

pub open spec fn w_ipv6(b: Seq<u8>, lax: bool) -> Result<WIp, WFault> {
    match w_ipv6_header(b) {
        Err(f) => Err(f),
        Ok(_) => {
            let pl = ipv6_payload_length(b);
            // payload length 0 with data behind the header: "up to the end of the enclosing data" (jumbogram placeholder)
            let to_end = pl == 0 && b.len() > 40;
            let cut = !to_end && 40 + pl > b.len();
            if !lax && cut { Err(WFault::Len(WErr { required_len: 40 + pl, len: b.len() as int, len_source: LenSource::Slice, layer: Layer::Ipv6Packet, offset: 0 })) }
            else {
                let end = if to_end || cut { b.len() as int } else { 40 + pl };
                let src = if to_end || cut { LenSource::Slice } else { LenSource::Ipv6HeaderPayloadLen };
                let c = w_ext_chain(b[6] as int, b.subrange(40, end), true);
                let fault = match c.fault {
                    None => None,
                    Some(f) => Some(match shift_fault(f, 40) { WFault::Len(e) => WFault::Len(WErr { len_source: src, ..e }), x => x }),
                };
                if !lax && fault.is_some() { Err(fault.unwrap()) }
                else {
                    Ok(WIp { version: 6, header_len: 40, exts_len: c.consumed, payload_start: 40 + c.consumed, payload_end: end, ip_number: c.next,
                             fragmented: c.fragmented, len_source: src, incomplete: cut, stop: fault })
                }
            }
        }
    }
}

/// version dispatch — the single postcondition of all twelve IP entry points (C06)
pub open spec fn w_ip(b: Seq<u8>, lax: bool) -> Result<WIp, WFault> {
    if b.len() < 1 { Err(too_short(b, 1, Layer::IpHeader)) }
    else if (b[0] as int) / 16 == 4 { w_ipv4(b, lax) }
    else if (b[0] as int) / 16 == 6 { w_ipv6(b, lax) }
    else { Err(WFault::Content(WContent::IpUnsupportedVersion { version_number: ((b[0] as int) / 16) as u8 })) }
}

// ------------------------------------------------------------------------------------------------
// transport
// ------------------------------------------------------------------------------------------------
/// UDP (RFC 768): length 0 = up to the end of the enclosing data (documented), else 8..=len
pub open spec fn w_udp(b: Seq<u8>, lax: bool) -> Result<int /*end of datagram*/, WFault> {
    if b.len() < 8 { Err(too_short(b, 8, Layer::UdpHeader)) }
    else {
        let l = be16(b, 4);
        if l == 0 { Ok(b.len() as int) }
        else if l > b.len() { if lax { Ok(b.len() as int) } else { Err(too_short(b, l, Layer::UdpPayload)) } }
        else if l < 8 { if lax { Ok(b.len() as int) } else { Err(WFault::Len(WErr { required_len: 8, len: l, len_source: LenSource::UdpHeaderLen, layer: Layer::UdpHeader, offset: 0 })) } }
        else { Ok(l) }
    }
}

/// TCP (RFC 9293): data offset in 32 bit words, 5..=15
pub open spec fn tcp_data_offset(b: Seq<u8>) -> int { (b[12] as int) / 16 }
pub open spec fn w_tcp(b: Seq<u8>) -> Result<int /*header len*/, WFault> {
    if b.len() < 20 { Err(too_short(b, 20, Layer::TcpHeader)) }
    else if tcp_data_offset(b) < 5 { Err(WFault::Content(WContent::TcpDataOffsetTooSmall { data_offset: tcp_data_offset(b) as u8 })) }
    else if b.len() < tcp_data_offset(b) * 4 { Err(too_short(b, tcp_data_offset(b) * 4, Layer::TcpHeader)) }
    else { Ok(tcp_data_offset(b) * 4) }
}

/// ICMPv4 (RFC 792): 8 byte header; timestamp / timestamp reply (code 0) are exactly 20 bytes
pub open spec fn w_icmp4(b: Seq<u8>) -> Result<int /*header len*/, WFault> {
    if b.len() < 8 { Err(too_short(b, 8, Layer::Icmpv4)) }
    else if b[0] == 13 && b[1] == 0 && b.len() != 20 { Err(WFault::Len(WErr { required_len: 20, len: b.len() as int, len_source: LenSource::Slice, layer: Layer::Icmpv4Timestamp, offset: 0 })) }
    else if b[0] == 14 && b[1] == 0 && b.len() != 20 { Err(WFault::Len(WErr { required_len: 20, len: b.len() as int, len_source: LenSource::Slice, layer: Layer::Icmpv4TimestampReply, offset: 0 })) }
    else if (b[0] == 13 || b[0] == 14) && b[1] == 0 { Ok(20) }
    else { Ok(8) }
}

/// ICMPv6 (RFC 4443): 8 byte header
pub open spec fn w_icmp6(b: Seq<u8>) -> Result<int, WFault> {
    if b.len() < 8 { Err(too_short(b, 8, Layer::Icmpv6)) } else { Ok(8) }
}

// sanity lemmas: the spec is not vacuous and is internally consistent
pub proof fn lemma_chain_consumed_bounds(n: int, b: Seq<u8>, first: bool)
    ensures 0 <= w_ext_chain(n, b, first).consumed <= b.len(),
        w_ext_chain(n, b, first).fault.is_none() ==> !is_ext(w_ext_chain(n, b, first).next),
    decreases b.len()
{
    if is_ext(n) && !(n == IPN_HBH && !first) {
        match w_ext_header(n, b) {
            Ok(l) => { if l > 0 && l <= b.len() { lemma_chain_consumed_bounds(b[0] as int, b.subrange(l, b.len() as int), false); } }
            Err(_) => {}
        }
    }
}

pub proof fn lemma_udp_example()
{
    let b = seq![0u8, 1, 0, 2, 0, 9, 0, 0, 7, 7, 7, 7];
    assert(be16(b, 4) == 9);
    assert(w_udp(b, false) == Ok::<int, WFault>(9));
}


// ---- mask-style IPv4 (experiment B) -----------------------------------------------------------------
pub open spec fn v4_ihl(b: Seq<u8>) -> u8 { b[0] & 0x0f }
pub open spec fn v4_version(b: Seq<u8>) -> u8 { b[0] >> 4 }
pub open spec fn v4_total_len(b: Seq<u8>) -> int { be16(b, 2) }
pub open spec fn v4_frag(b: Seq<u8>) -> bool { b[6] & 0x20 != 0 || (((b[6] & 0x1f) as int) * 256 + b[7] as int) != 0 }

pub open spec fn w4_header(b: Seq<u8>) -> Result<int, WFault> {
    if b.len() < 20 { Err(too_short(b, 20, Layer::Ipv4Header)) }
    else if v4_version(b) != 4 { Err(WFault::Content(WContent::Ipv4UnexpectedVersion { version_number: v4_version(b) })) }
    else if v4_ihl(b) < 5 { Err(WFault::Content(WContent::Ipv4IhlTooSmall { ihl: v4_ihl(b) })) }
    else if b.len() < (v4_ihl(b) as int) * 4 { Err(too_short(b, (v4_ihl(b) as int) * 4, Layer::Ipv4Header)) }
    else { Ok((v4_ihl(b) as int) * 4) }
}

/// strict IPv4 boundary (header, optional AH, payload range)
pub open spec fn w4_strict(b: Seq<u8>) -> Result<WIp, WFault> {
    match w4_header(b) {
        Err(f) => Err(f),
        Ok(h) => {
            let tl = v4_total_len(b);
            if tl < h { Err(WFault::Len(WErr { required_len: h, len: tl, len_source: LenSource::Ipv4HeaderTotalLen, layer: Layer::Ipv4Packet, offset: 0 })) }
            else if b.len() < tl { Err(WFault::Len(WErr { required_len: tl, len: b.len() as int, len_source: LenSource::Slice, layer: Layer::Ipv4Packet, offset: 0 })) }
            else if b[9] != 51 {
                Ok(WIp { version: 4, header_len: h, exts_len: 0, payload_start: h, payload_end: tl, ip_number: b[9] as int, fragmented: v4_frag(b), len_source: LenSource::Ipv4HeaderTotalLen, incomplete: false, stop: None })
            } else {
                let rest = b.subrange(h, tl);
                match w_ext_header(IPN_AUTH, rest) {
                    Ok(a) => Ok(WIp { version: 4, header_len: h, exts_len: a, payload_start: h + a, payload_end: tl, ip_number: rest[0] as int, fragmented: v4_frag(b), len_source: LenSource::Ipv4HeaderTotalLen, incomplete: false, stop: None }),
                    Err(WFault::Len(e)) => Err(WFault::Len(WErr { len_source: LenSource::Ipv4HeaderTotalLen, offset: e.offset + h, ..e })),
                    Err(c) => Err(c),
                }
            }
        }
    }
}

/// C07: layer, offset, len, required_len exactly; the length source may always be reported as `Slice`
/// (the property only forbids naming a field that did not limit the data), otherwise it must be the real one
pub open spec fn same_len_err(e: crate::err::LenError, w: WErr) -> bool {
    e.required_len == w.required_len && e.len == w.len && e.layer == w.layer && e.layer_start_offset == w.offset
    && (e.len_source == w.len_source || e.len_source == LenSource::Slice)
    && (if w.required_len > w.len { e.required_len > e.len } else { e.required_len < e.len })
}

/// lax IPv4 boundary: never fails behind a decodable header; `incomplete` <=> total_len promised more than the slice holds
pub open spec fn w4_lax(b: Seq<u8>) -> Result<WIp, WFault> {
    match w4_header(b) {
        Err(f) => Err(f),
        Ok(h) => {
            let tl = v4_total_len(b);
            let bad_tl = tl < h;
            let cut = !bad_tl && tl > b.len();
            let end = if bad_tl || cut { b.len() as int } else { tl };
            let src = if bad_tl || cut { LenSource::Slice } else { LenSource::Ipv4HeaderTotalLen };
            if b[9] != 51 {
                Ok(WIp { version: 4, header_len: h, exts_len: 0, payload_start: h, payload_end: end, ip_number: b[9] as int, fragmented: v4_frag(b), len_source: src, incomplete: cut, stop: None })
            } else {
                let rest = b.subrange(h, end);
                match w_ext_header(IPN_AUTH, rest) {
                    Ok(a) => Ok(WIp { version: 4, header_len: h, exts_len: a, payload_start: h + a, payload_end: end, ip_number: rest[0] as int, fragmented: v4_frag(b), len_source: src, incomplete: cut, stop: None }),
                    Err(WFault::Len(e)) => Ok(WIp { version: 4, header_len: h, exts_len: 0, payload_start: h, payload_end: end, ip_number: 51, fragmented: v4_frag(b), len_source: src, incomplete: cut,
                                                    stop: Some(WFault::Len(WErr { len_source: src, offset: e.offset + h, ..e })) }),
                    Err(c) => Ok(WIp { version: 4, header_len: h, exts_len: 0, payload_start: h, payload_end: end, ip_number: 51, fragmented: v4_frag(b), len_source: src, incomplete: cut, stop: Some(c) }),
                }
            }
        }
    }
}

// ------------------------------------------------------------------------------------------------
// whole packet (strict): the layer sequence of C03.  Offsets are absolute (relative to the buffer the caller passed).
// ------------------------------------------------------------------------------------------------
pub ghost enum WLinkExt { Vlan { at: int }, Macsec { at: int, header_len: int } }
pub ghost enum WNet { None, Arp { at: int, len: int }, Ip { at: int, ip: WIp } }
pub ghost enum WTransport { None, Udp { at: int, end: int }, Tcp { at: int, header_len: int, end: int }, Icmp4 { at: int, header_len: int, end: int }, Icmp6 { at: int, end: int } }
pub ghost struct WPacket {
    pub exts: Seq<WLinkExt>,          // at most 3
    pub net: WNet,
    pub transport: WTransport,
    pub fault: Option<WFault>,        // strict: Some => the whole parse is Err(fault) (offset absolute)
}

pub open spec fn fault_at(f: WFault, at: int, outer: LenSource) -> WFault {
    match f {
        // a layer that saw the slice as its limit inherits the source that trimmed the slice in front of it
        WFault::Len(e) => WFault::Len(WErr { offset: e.offset + at, len_source: if e.len_source == LenSource::Slice { outer } else { e.len_source }, ..e }),
        c => c,
    }
}

/// transport layer behind an IP payload [at, end) of `b`
pub open spec fn wp_transport(b: Seq<u8>, at: int, end: int, ip_number: int, fragmented: bool, src: LenSource) -> (WTransport, Option<WFault>) {
    let p = b.subrange(at, end);
    if fragmented { (WTransport::None, None) }
    else if ip_number == 17 { match w_udp(p, false) { Ok(e) => (WTransport::Udp { at, end: at + e }, None), Err(f) => (WTransport::None, Some(fault_at(f, at, src))) } }
    else if ip_number == 6 { match w_tcp(p) { Ok(h) => (WTransport::Tcp { at, header_len: h, end }, None), Err(f) => (WTransport::None, Some(fault_at(f, at, src))) } }
    else if ip_number == 1 { match w_icmp4(p) { Ok(h) => (WTransport::Icmp4 { at, header_len: h, end }, None), Err(f) => (WTransport::None, Some(fault_at(f, at, src))) } }
    else if ip_number == 58 { match w_icmp6(p) { Ok(_) => (WTransport::Icmp6 { at, end }, None), Err(f) => (WTransport::None, Some(fault_at(f, at, src))) } }
    else { (WTransport::None, None) }
}

/// network + transport behind an ether type; the data available is b[at..end), trimmed by `src`
pub open spec fn wp_net(b: Seq<u8>, ether_type: int, at: int, end: int, src: LenSource) -> (WNet, WTransport, Option<WFault>) {
    let p = b.subrange(at, end);
    if ether_type == ET_ARP {
        match w_arp(p) { Ok(l) => (WNet::Arp { at, len: l }, WTransport::None, None), Err(f) => (WNet::None, WTransport::None, Some(fault_at(f, at, src))) }
    } else if ether_type == ET_IPV4 || ether_type == ET_IPV6 {
        let r = if ether_type == ET_IPV4 { w_ipv4(p, false) } else { w_ipv6(p, false) };
        match r {
            Err(f) => (WNet::None, WTransport::None, Some(fault_at(f, at, src))),
            Ok(ip) => {
                let inner = if ip.len_source == LenSource::Slice { src } else { ip.len_source };
                let (t, f) = wp_transport(b, at + ip.payload_start, at + ip.payload_end, ip.ip_number, ip.fragmented, inner);
                (WNet::Ip { at, ip }, t, f)
            }
        }
    } else { (WNet::None, WTransport::None, None) }
}

/// link extensions (VLAN / MACsec, at most 3) then the network layer
pub open spec fn wp_ether(b: Seq<u8>, ether_type: int, at: int, end: int, src: LenSource, exts: Seq<WLinkExt>) -> WPacket
    decreases 3 - exts.len()
{
    let p = b.subrange(at, end);
    if exts.len() >= 3 && (is_vlan_ether_type(ether_type) || ether_type == ET_MACSEC) {
        WPacket { exts, net: WNet::None, transport: WTransport::None, fault: None }
    } else if is_vlan_ether_type(ether_type) {
        match w_vlan(p) {
            Err(f) => WPacket { exts, net: WNet::None, transport: WTransport::None, fault: Some(fault_at(f, at, src)) },
            Ok((et, h)) => wp_ether(b, et, at + h, end, src, exts.push(WLinkExt::Vlan { at })),
        }
    } else if ether_type == ET_MACSEC {
        match w_macsec(p, false) {
            Err(f) => WPacket { exts, net: WNet::None, transport: WTransport::None, fault: Some(fault_at(f, at, src)) },
            Ok(m) => {
                let e2 = exts.push(WLinkExt::Macsec { at, header_len: m.header_len });
                if !m.unmodified { WPacket { exts: e2, net: WNet::None, transport: WTransport::None, fault: None } }
                else { wp_ether(b, m.next_ether_type, at + m.payload_start, at + m.payload_end, if m.len_source == LenSource::Slice { src } else { m.len_source }, e2) }
            }
        }
    } else {
        let (n, t, f) = wp_net(b, ether_type, at, end, src);
        WPacket { exts, net: n, transport: t, fault: f }
    }
}

pub open spec fn wp_from_ether_type(b: Seq<u8>, ether_type: int) -> WPacket { wp_ether(b, ether_type, 0, b.len() as int, LenSource::Slice, Seq::empty()) }
pub open spec fn wp_from_ethernet(b: Seq<u8>) -> WPacket {
    match w_eth2(b) {
        Err(f) => WPacket { exts: Seq::empty(), net: WNet::None, transport: WTransport::None, fault: Some(f) },
        Ok((et, h)) => wp_ether(b, et, h, b.len() as int, LenSource::Slice, Seq::empty()),
    }
}
/// C06: starting at the Ethernet header == starting at its ether type on the bytes behind it, offsets shifted by 14 — by definition
pub open spec fn wp_from_ip(b: Seq<u8>) -> (WNet, WTransport, Option<WFault>) {
    match w_ip(b, false) {
        Err(f) => (WNet::None, WTransport::None, Some(f)),
        Ok(ip) => { let (t, f) = wp_transport(b, ip.payload_start, ip.payload_end, ip.ip_number, ip.fragmented, ip.len_source); (WNet::Ip { at: 0, ip }, t, f) }
    }
}
/// C05 on the specification level: wherever the strict IPv4 boundary accepts, the lax boundary is the same record (no stop, not incomplete)
pub proof fn lemma_w4_lax_extends_strict(b: Seq<u8>)
    ensures w4_strict(b) matches Ok(ws) ==> w4_lax(b) == Ok::<WIp, WFault>(ws) && ws.stop is None && !ws.incomplete,
{}

} // verus!
