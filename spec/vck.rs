//! vck — RFC 1071 specification of the Internet checksum and the arithmetic lemmas behind the C09 contracts.
//! Written from RFC 1071 section 1 (one's-complement sum of 16-bit words, odd byte padded with zero) — not from the code.
//! Stated assumption: little-endian target, so a "native-endian word" of bytes (b0, b1) is b0 + 256*b1.
#[allow(unused_imports)]
use vstd::prelude::*;
verus! {

/// value of an accumulator in 16-bit one's-complement arithmetic: 0 stays 0, every other sum is folded into 1..=65535
/// (end-around carry: 2^16 == 1 mod 65535)
pub open spec fn oc16(x: int) -> int { if x == 0 { 0 } else { ((x - 1) % 65535) + 1 } }

/// native-endian (little-endian) word
pub open spec fn w(lo: u8, hi: u8) -> int { lo as int + 256 * (hi as int) }

/// sum of the 16-bit words of the first n bytes (n even)
pub open spec fn wsum(s: Seq<u8>, n: int) -> int
    decreases n
{
    if n <= 1 { 0 } else { wsum(s, n - 2) + w(s[n - 2], s[n - 1]) }
}

/// RFC 1071 word sum of the whole sequence, odd tail padded with a zero byte
pub open spec fn wsum_all(s: Seq<u8>) -> int {
    if s.len() % 2 == 0 { wsum(s, s.len() as int) } else { wsum(s, s.len() - 1) + w(s[s.len() - 1], 0) }
}

/// the checksum as the crate's helpers produce it before `.to_be()`: complement of the folded native-endian sum
pub open spec fn cksum_ne(total: int) -> int { 0xffff - oc16(total) }

/// the accumulator value v (a folded sum) represents the mathematical total t. Used as the trigger of the flattened call-chain
/// clauses: `repr(acc.val(), t) ==> repr(result.val(), t + words)` — the first argument ties each clause to one accumulator, so
/// instantiations do not feed each other (no matching loop).
pub open spec fn repr(v: int, t: int) -> bool { t >= 0 && oc16(t) == v }

pub proof fn lemma_oc16_range(x: int)
    requires x >= 0
    ensures 0 <= oc16(x) <= 65535, (x > 0 ==> oc16(x) >= 1), (x <= 65535 ==> oc16(x) == x)
{
    if x > 0 {
        vstd::arithmetic::div_mod::lemma_mod_bound(x - 1, 65535);
        if x <= 65535 { vstd::arithmetic::div_mod::lemma_small_mod((x - 1) as nat, 65535); }
    }
}

/// 2^16 == 1 (mod 65535): a*65536 + b and a + b have the same one's-complement value
pub proof fn lemma_oc16_fold(hi: int, lo: int)
    requires hi >= 0, lo >= 0
    ensures oc16(hi * 65536 + lo) == oc16(hi + lo)
{
    if hi > 0 || lo > 0 {
        assert(hi * 65536 + lo - 1 == (hi + lo - 1) + 65535 * hi) by (nonlinear_arith);
        vstd::arithmetic::div_mod::lemma_mod_multiples_vanish(hi, hi + lo - 1, 65535);
    }
}

pub proof fn lemma_oc16_add_left(a: int, c: int)
    requires a >= 0, c >= 0
    ensures oc16(oc16(a) + c) == oc16(a + c)
{
    if a > 0 {
        vstd::arithmetic::div_mod::lemma_add_mod_noop_right(c, a - 1, 65535);
        vstd::arithmetic::div_mod::lemma_add_mod_noop_right(c, (a - 1) % 65535, 65535);
        vstd::arithmetic::div_mod::lemma_mod_twice(a - 1, 65535);
        assert(((a - 1) % 65535 + 1 + c - 1) % 65535 == (a + c - 1) % 65535);
    }
}

pub proof fn lemma_oc16_cong(a: int, b: int, c: int)
    requires a >= 0, b >= 0, c >= 0, oc16(a) == oc16(b)
    ensures oc16(a + c) == oc16(b + c)
{
    lemma_oc16_add_left(a, c); lemma_oc16_add_left(b, c);
}

pub proof fn lemma_wsum_nonneg(s: Seq<u8>, n: int)
    ensures wsum(s, n) >= 0
    decreases n
{
    if n > 1 { lemma_wsum_nonneg(s, n - 2); }
}

pub proof fn lemma_wsum_all_nonneg(s: Seq<u8>)
    ensures wsum_all(s) >= 0
{
    lemma_wsum_nonneg(s, s.len() as int); lemma_wsum_nonneg(s, s.len() - 1);
}

/// end-around carry add on u64 preserves the one's-complement value of the mathematical sum (2^64 - 1 = 65535 * 281479271743489)
pub proof fn lemma_eac64(start: u64, v: u64, sum: u64, carry: bool)
    requires
        (start as int + v as int) >= 0x1_0000_0000_0000_0000 ==> carry && sum as int == start as int + v as int - 0x1_0000_0000_0000_0000,
        ((start as int) + (v as int)) < 0x1_0000_0000_0000_0000int ==> !carry && sum as int == start as int + v as int,
    ensures
        sum as int + (if carry { 1int } else { 0int }) <= u64::MAX,
        oc16(sum as int + (if carry { 1int } else { 0int })) == oc16(start as int + v as int),
{
    if carry {
        let t = start as int + v as int;
        assert(0x1_0000_0000_0000_0000 - 1 == 65535 * 281479271743489int) by (compute);
        assert(t - 1 == (t - 0x1_0000_0000_0000_0000) + 65535 * 281479271743489int);
        vstd::arithmetic::div_mod::lemma_mod_multiples_vanish(281479271743489int, t - 0x1_0000_0000_0000_0000, 65535);
    }
}

/// the same for u32 (2^32 - 1 = 65535 * 65537)
pub proof fn lemma_eac32(start: u32, v: u32, sum: u32, carry: bool)
    requires
        (start as int + v as int) >= 0x1_0000_0000 ==> carry && sum as int == start as int + v as int - 0x1_0000_0000,
        ((start as int) + (v as int)) < 0x1_0000_0000int ==> !carry && sum as int == start as int + v as int,
    ensures
        sum as int + (if carry { 1int } else { 0int }) <= u32::MAX,
        oc16(sum as int + (if carry { 1int } else { 0int })) == oc16(start as int + v as int),
{
    if carry {
        let t = start as int + v as int;
        assert(0x1_0000_0000 - 1 == 65535 * 65537int) by (compute);
        assert(t - 1 == (t - 0x1_0000_0000) + 65535 * 65537int);
        vstd::arithmetic::div_mod::lemma_mod_multiples_vanish(65537int, t - 0x1_0000_0000, 65535);
    }
}

/// a 4-byte native-endian value adds its two words
pub proof fn lemma_add4(start: int, w0: int, w1: int)
    requires start >= 0, w0 >= 0, w1 >= 0
    ensures oc16(start + (w0 + 65536 * w1)) == oc16(start + w0 + w1)
{
    lemma_oc16_fold(w1, start + w0);
    assert(start + (w0 + 65536 * w1) == w1 * 65536 + (start + w0)) by (nonlinear_arith);
}

/// an 8-byte native-endian value adds its four words
pub proof fn lemma_add8(start: int, w0: int, w1: int, w2: int, w3: int)
    requires start >= 0, w0 >= 0, w1 >= 0, w2 >= 0, w3 >= 0
    ensures oc16(start + (w0 + 65536 * (w1 + 65536 * (w2 + 65536 * w3)))) == oc16(start + w0 + w1 + w2 + w3)
{
    lemma_oc16_fold(w1 + 65536 * (w2 + 65536 * w3), start + w0);
    assert(start + (w0 + 65536 * (w1 + 65536 * (w2 + 65536 * w3))) == (w1 + 65536 * (w2 + 65536 * w3)) * 65536 + (start + w0)) by (nonlinear_arith);
    lemma_oc16_fold(w2 + 65536 * w3, start + w0 + w1);
    assert(w1 + 65536 * (w2 + 65536 * w3) + (start + w0) == (w2 + 65536 * w3) * 65536 + (start + w0 + w1)) by (nonlinear_arith);
    lemma_oc16_fold(w3, start + w0 + w1 + w2);
    assert(w2 + 65536 * w3 + (start + w0 + w1) == w3 * 65536 + (start + w0 + w1 + w2)) by (nonlinear_arith);
}

pub proof fn lemma_wsum_step2(s: Seq<u8>, i: int)
    requires i >= 0
    ensures wsum(s, i + 2) == wsum(s, i) + w(s[i], s[i + 1])
{ reveal_with_fuel(wsum, 2); }

pub proof fn lemma_wsum_step4(s: Seq<u8>, i: int)
    requires i >= 0
    ensures wsum(s, i + 4) == wsum(s, i) + w(s[i], s[i + 1]) + w(s[i + 2], s[i + 3])
{ lemma_wsum_step2(s, i); lemma_wsum_step2(s, i + 2); }

pub proof fn lemma_wsum_step8(s: Seq<u8>, i: int)
    requires i >= 0
    ensures wsum(s, i + 8) == wsum(s, i) + w(s[i], s[i + 1]) + w(s[i + 2], s[i + 3]) + w(s[i + 4], s[i + 5]) + w(s[i + 6], s[i + 7])
{ lemma_wsum_step4(s, i); lemma_wsum_step4(s, i + 4); }

/// index arithmetic of the tail handling in `u64_16bit_word::add_slice` (8-byte chunks, then 4, then 2, then the odd byte)
pub proof fn lemma_tail8(len: int, e64: int, e32: int, e16: int)
    requires len >= 0, e64 == len - len % 8,
        e32 == (if len - e64 >= 4 { e64 + 4 } else { e64 }),
        e16 == (if len - e32 >= 2 { e32 + 2 } else { e32 }),
    ensures e16 == len - len % 2, e64 % 8 == 0, 0 <= e64 <= e32 <= e16 <= len, e64 % 2 == 0, e32 % 2 == 0, e16 % 2 == 0
{
    let r = len % 8;
    vstd::arithmetic::div_mod::lemma_fundamental_div_mod(len, 8);
    vstd::arithmetic::div_mod::lemma_mod_mod(len, 2, 4);
    assert(len % 2 == r % 2);
    assert(e64 == 8 * (len / 8));
    assert(0 <= r < 8);
}

/// last step of `add_slice`: the even prefix is summed, an odd trailing byte is added as the word (byte, 0)
pub proof fn lemma_finish(s: Seq<u8>, start: int, sum_c: int, sum: int, e16: int)
    requires start >= 0, sum_c >= 0, sum >= 0, e16 == s.len() - s.len() % 2,
        oc16(sum_c) == oc16(start + wsum(s, e16)),
        s.len() % 2 != 0 ==> oc16(sum) == oc16(sum_c + w(s[s.len() - 1], 0)),
        s.len() % 2 == 0 ==> sum == sum_c,
    ensures oc16(sum) == oc16(start + wsum_all(s))
{
    lemma_wsum_nonneg(s, e16);
    if s.len() % 2 != 0 {
        lemma_acc_step(sum_c, sum, start, wsum(s, e16), w(s[s.len() - 1], 0));
    }
}

/// one accumulation step: `acc` represents start + wsum(s, i); adding `add` (the words of the next chunk) represents start + wsum(s, i) + add
pub proof fn lemma_acc_step(acc_old: int, acc_new: int, start: int, base: int, add: int)
    requires acc_old >= 0, start >= 0, base >= 0, add >= 0,
        oc16(acc_old) == oc16(start + base),
        oc16(acc_new) == oc16(acc_old + add),
    ensures oc16(acc_new) == oc16(start + base + add)
{
    lemma_oc16_cong(acc_old, start + base, add);
}

/// C09 "independent of how the data is split at even offsets": the word sum of a concatenation whose first part has even
/// length is the sum of the word sums
pub proof fn lemma_wsum_prefix(s: Seq<u8>, t: Seq<u8>, n: int)
    requires 0 <= n <= s.len(), n % 2 == 0, t.len() >= n, forall|i: int| 0 <= i < n ==> s[i] == t[i]
    ensures wsum(s, n) == wsum(t, n)
    decreases n
{
    if n > 1 { lemma_wsum_prefix(s, t, n - 2); }
}

pub proof fn lemma_wsum_concat(a: Seq<u8>, b: Seq<u8>, n: int)
    requires a.len() % 2 == 0, 0 <= n <= b.len(), n % 2 == 0
    ensures wsum(a + b, a.len() + n) == wsum(a, a.len() as int) + wsum(b, n)
    decreases n
{
    if n <= 1 {
        lemma_wsum_prefix(a + b, a, a.len() as int);
    } else {
        lemma_wsum_concat(a, b, n - 2);
        assert((a + b)[a.len() + n - 2] == b[n - 2]);
        assert((a + b)[a.len() + n - 1] == b[n - 1]);
    }
}

pub proof fn lemma_split(a: Seq<u8>, b: Seq<u8>)
    requires a.len() % 2 == 0
    ensures wsum_all(a + b) == wsum_all(a) + wsum_all(b)
{
    if b.len() % 2 == 0 {
        lemma_wsum_concat(a, b, b.len() as int);
    } else {
        lemma_wsum_concat(a, b, b.len() - 1);
        assert((a + b)[(a + b).len() - 1] == b[b.len() - 1]);
    }
}

/// 64-bit fold used by `ones_complement`
pub proof fn lemma_split64(sum: u64)
    ensures
        sum as int == ((sum >> 48) & 0xffff) as int * 0x1_0000_0000_0000 + ((sum >> 32) & 0xffff) as int * 0x1_0000_0000 + ((sum >> 16) & 0xffff) as int * 0x1_0000 + (sum & 0xffff) as int,
        ((sum >> 48) & 0xffff) <= 0xffff, ((sum >> 32) & 0xffff) <= 0xffff, ((sum >> 16) & 0xffff) <= 0xffff, (sum & 0xffff) <= 0xffff,
{
    assert(sum == ((sum >> 48) & 0xffff) * 0x1_0000_0000_0000 + ((sum >> 32) & 0xffff) * 0x1_0000_0000 + ((sum >> 16) & 0xffff) * 0x1_0000 + (sum & 0xffff)) by (bit_vector);
    assert(((sum >> 48) & 0xffff) <= 0xffff && ((sum >> 32) & 0xffff) <= 0xffff && ((sum >> 16) & 0xffff) <= 0xffff && (sum & 0xffff) <= 0xffff) by (bit_vector);
}

pub proof fn lemma_fold64(sum: u64, first: u64, second: u64, u16value: u16)
    requires
        first == ((sum >> 48) & 0xffff) + ((sum >> 32) & 0xffff) + ((sum >> 16) & 0xffff) + (sum & 0xffff),
        second == ((first >> 16) & 0xffff) + (first & 0xffff),
        u16value == (((second >> 16) & 0xffff) + (second & 0xffff)) as u16,
    ensures
        (!u16value) as int == 0xffff - oc16(sum as int),
        (((second >> 16) & 0xffff) + (second & 0xffff)) <= 0xffff,
{
    lemma_split64(sum);
    let a = ((sum >> 48) & 0xffff) as int; let b = ((sum >> 32) & 0xffff) as int; let c = ((sum >> 16) & 0xffff) as int; let d = (sum & 0xffff) as int;
    assert(a * 0x1_0000_0000_0000 + b * 0x1_0000_0000 + c * 0x1_0000 + d == ((a * 65536 + b) * 65536 + c) * 65536 + d) by (nonlinear_arith);
    lemma_oc16_fold((a * 65536 + b) * 65536 + c, d);
    lemma_oc16_fold(a * 65536 + b, c + d);
    assert((a * 65536 + b) * 65536 + c + d == (a * 65536 + b) * 65536 + (c + d));
    lemma_oc16_fold(a, b + c + d);
    assert(a * 65536 + b + (c + d) == a * 65536 + (b + c + d));
    assert(oc16(sum as int) == oc16(first as int));
    assert(first == ((first >> 16) & 0xffff) * 0x1_0000 + (first & 0xffff) && ((first >> 16) & 0xffff) <= 3 && (first & 0xffff) <= 0xffff) by (bit_vector) requires first <= 0x3fffc;
    lemma_oc16_fold(((first >> 16) & 0xffff) as int, (first & 0xffff) as int);
    assert(oc16(first as int) == oc16(second as int));
    assert(second == ((second >> 16) & 0xffff) * 0x1_0000 + (second & 0xffff) && ((second >> 16) & 0xffff) <= 1 && (second & 0xffff) <= 0xffff
        && (((second >> 16) & 0xffff) == 1 ==> (second & 0xffff) <= 2)) by (bit_vector) requires second <= 0x10002;
    lemma_oc16_fold(((second >> 16) & 0xffff) as int, (second & 0xffff) as int);
    let t = (((second >> 16) & 0xffff) + (second & 0xffff)) as int;
    assert(oc16(second as int) == oc16(t));
    assert(t <= 0xffff);
    lemma_oc16_range(t);
    assert(u16value as int == t);
    assert(!u16value == 0xffffu16 - u16value) by (bit_vector);
}

/// 32-bit fold used by `u32_16bit_word::ones_complement`
pub proof fn lemma_fold32(sum: u32, first: u32, u16value: u16)
    requires
        first == ((sum >> 16) & 0xffff) + (sum & 0xffff),
        u16value == (((first >> 16) & 0xffff) + (first & 0xffff)) as u16,
    ensures
        (!u16value) as int == 0xffff - oc16(sum as int),
        (((first >> 16) & 0xffff) + (first & 0xffff)) <= 0xffff,
{
    assert(sum == ((sum >> 16) & 0xffff) * 0x1_0000 + (sum & 0xffff) && ((sum >> 16) & 0xffff) <= 0xffff && (sum & 0xffff) <= 0xffff) by (bit_vector);
    lemma_oc16_fold(((sum >> 16) & 0xffff) as int, (sum & 0xffff) as int);
    assert(oc16(sum as int) == oc16(first as int));
    assert(first == ((first >> 16) & 0xffff) * 0x1_0000 + (first & 0xffff) && ((first >> 16) & 0xffff) <= 1 && (first & 0xffff) <= 0xffff
        && (((first >> 16) & 0xffff) == 1 ==> (first & 0xffff) <= 0xfffe)) by (bit_vector) requires first <= 0x1fffe;
    lemma_oc16_fold(((first >> 16) & 0xffff) as int, (first & 0xffff) as int);
    let t = (((first >> 16) & 0xffff) + (first & 0xffff)) as int;
    assert(t <= 0xffff);
    lemma_oc16_range(t);
    assert(u16value as int == t);
    assert(!u16value == 0xffffu16 - u16value) by (bit_vector);
}


// ------------------------------------------------------------------------------------------------------------------
// big-endian (RFC) form. The crate sums native-endian words and byte-swaps the folded result (`.to_be()`); RFC 1071
// section 2(B) "byte order independence": swapping the bytes of every word swaps the bytes of the one's-complement sum.
// ------------------------------------------------------------------------------------------------------------------

/// big-endian 16 bit word of the byte pair (a, b) as it appears on the wire
pub open spec fn wb(a: u8, b: u8) -> int { 256 * (a as int) + b as int }
/// big-endian word of a u16 / its two halves
pub open spec fn hi8(x: u16) -> u8 { (x / 256) as u8 }
pub open spec fn lo8(x: u16) -> u8 { (x % 256) as u8 }

/// sum of big-endian words of the first n bytes (n even)
pub open spec fn wsum_be(s: Seq<u8>, n: int) -> int
    decreases n
{
    if n <= 1 { 0 } else { wsum_be(s, n - 2) + wb(s[n - 2], s[n - 1]) }
}
/// RFC 1071: sum of the big-endian 16-bit words of s, an odd trailing byte is padded with a zero byte on the right
pub open spec fn wsum_be_all(s: Seq<u8>) -> int {
    if s.len() % 2 == 0 { wsum_be(s, s.len() as int) } else { wsum_be(s, s.len() - 1) + wb(s[s.len() - 1], 0) }
}
/// sum of the second bytes of every word (the amount by which 256 * LE-sum exceeds the BE-sum, in units of 65535)
pub open spec fn hsum(s: Seq<u8>, n: int) -> int
    decreases n
{
    if n <= 1 { 0 } else { hsum(s, n - 2) + s[n - 1] as int }
}

/// the Internet checksum of RFC 1071 as a 16-bit number in network byte order semantics (value whose big-endian bytes go on the wire)
pub open spec fn rfc1071(be_total: int) -> int { 0xffff - oc16(be_total) }
/// UDP (RFC 768): a computed checksum of zero is transmitted as all ones
pub open spec fn rfc1071_nz(be_total: int) -> int { if rfc1071(be_total) == 0 { 0xffff } else { rfc1071(be_total) } }
pub open spec fn swap16(x: int) -> int { (x % 256) * 256 + x / 256 }

pub proof fn lemma_le_be_prefix(s: Seq<u8>, n: int)
    requires 0 <= n <= s.len(), n % 2 == 0
    ensures 256 * wsum(s, n) == wsum_be(s, n) + 65535 * hsum(s, n), wsum_be(s, n) >= 0, hsum(s, n) >= 0, wsum(s, n) >= 0,
        wsum_be(s, n) == 0 ==> hsum(s, n) == 0
    decreases n
{
    if n > 1 { lemma_le_be_prefix(s, n - 2); }
}

/// payload part: relation between the native-endian and the big-endian word sum of a whole byte string
pub proof fn lemma_le_be_all(s: Seq<u8>) -> (k: int)
    ensures 256 * wsum_all(s) == wsum_be_all(s) + 65535 * k, k >= 0, wsum_be_all(s) >= 0, wsum_all(s) >= 0, wsum_be_all(s) == 0 ==> k == 0
{
    if s.len() % 2 == 0 { lemma_le_be_prefix(s, s.len() as int); hsum(s, s.len() as int) }
    else { lemma_le_be_prefix(s, s.len() - 1); hsum(s, s.len() - 1) }
}

pub proof fn lemma_oc16_period(x: int, k: int)
    requires x >= 0, k >= 0, x == 0 ==> k == 0
    ensures oc16(x + 65535 * k) == oc16(x)
{
    if x > 0 {
        vstd::arithmetic::div_mod::lemma_mod_multiples_vanish(k, x - 1, 65535);
        assert(x + 65535 * k - 1 == 65535 * k + (x - 1));
    }
}

pub proof fn lemma_oc16_idem(x: int)
    requires x >= 0
    ensures oc16(oc16(x)) == oc16(x)
{
    lemma_oc16_range(x); lemma_oc16_range(oc16(x));
}

/// multiplying by 256 (= moving every byte to the other half of its word) byte-swaps the folded sum
pub proof fn lemma_oc16_times256(x: int)
    requires x >= 0
    ensures oc16(256 * x) == swap16(oc16(x))
{
    let y = oc16(x);
    lemma_oc16_range(x);
    // 256*x and 256*y have the same one's-complement value
    if x > 0 {
        // x == y + 65535 * q
        let q = (x - 1) / 65535;
        vstd::arithmetic::div_mod::lemma_fundamental_div_mod(x - 1, 65535);
        assert(x == y + 65535 * q);
        vstd::arithmetic::div_mod::lemma_div_pos_is_pos(x - 1, 65535);
        assert(256 * x == 256 * y + 65535 * (256 * q)) by (nonlinear_arith) requires x == y + 65535 * q;
        lemma_oc16_period(256 * y, 256 * q);
    }
    // 256*y == swap16(y) + 65535 * (y / 256) for 0 <= y <= 65535
    let lo = y % 256; let hi = y / 256;
    vstd::arithmetic::div_mod::lemma_fundamental_div_mod(y, 256);
    assert(y == 256 * hi + lo);
    assert(256 * y == swap16(y) + 65535 * hi) by (nonlinear_arith) requires y == 256 * hi + lo, swap16(y) == lo * 256 + hi;
    assert(0 <= hi <= 255 && 0 <= lo <= 255) by (nonlinear_arith) requires y == 256 * hi + lo, 0 <= y <= 65535, 0 <= lo < 256;
    if swap16(y) == 0 { assert(hi == 0) by (nonlinear_arith) requires lo * 256 + hi == 0, lo >= 0, hi >= 0; }
    lemma_oc16_period(swap16(y), hi);
    assert(0 <= swap16(y) <= 65535) by (nonlinear_arith) requires swap16(y) == lo * 256 + hi, 0 <= hi <= 255, 0 <= lo <= 255;
    lemma_oc16_range(swap16(y));
}

/// the crate's native-endian result, byte-swapped, is the RFC 1071 checksum over the big-endian words
pub proof fn lemma_to_be(le_total: int, be_total: int, k: int)
    requires le_total >= 0, be_total >= 0, k >= 0, 256 * le_total == be_total + 65535 * k, be_total == 0 ==> k == 0
    ensures swap16(0xffff - oc16(le_total)) == rfc1071(be_total),
        swap16(if 0xffff - oc16(le_total) == 0 { 0xffff } else { 0xffff - oc16(le_total) }) == rfc1071_nz(be_total),
{
    lemma_oc16_times256(le_total);
    lemma_oc16_period(be_total, k);
    lemma_oc16_range(le_total);
    let y = oc16(le_total);
    // complement commutes with the byte swap
    let lo = y % 256; let hi = y / 256;
    vstd::arithmetic::div_mod::lemma_fundamental_div_mod(y, 256);
    assert(0 <= hi <= 255) by (nonlinear_arith) requires y == 256 * hi + lo, 0 <= y <= 65535, 0 <= lo < 256;
    let c = 0xffff - y;
    assert(c == 256 * (255 - hi) + (255 - lo));
    vstd::arithmetic::div_mod::lemma_fundamental_div_mod_converse(c, 256, 255 - hi, 255 - lo);
    assert(swap16(c) == 0xffff - swap16(y));
    assert(swap16(0xffff) == 0xffff) by (compute);
    if c == 0 { assert(swap16(y) == 0xffff); }
    if swap16(y) == 0xffff {
        assert(lo == 255 && hi == 255) by (nonlinear_arith) requires lo * 256 + hi == 0xffff, 0 <= hi <= 255, 0 <= lo <= 255;
    }
}


// ------------------------------------------------------------------------------------------------------------------
// pseudo headers (RFC 768 / RFC 9293 section 3.1 for IPv4, RFC 8200 section 8.1 for IPv6) in big-endian (RFC) and in the
// crate's native-endian form, with the relation lemma_to_be needs
// ------------------------------------------------------------------------------------------------------------------

/// IPv4 pseudo header: source, destination, zero byte + protocol, 16 bit upper-layer length
pub open spec fn ps4_be(s: Seq<u8>, d: Seq<u8>, proto: int, len: int) -> int {
    wb(s[0], s[1]) + wb(s[2], s[3]) + wb(d[0], d[1]) + wb(d[2], d[3]) + proto + len
}
pub open spec fn ps4_le(s: Seq<u8>, d: Seq<u8>, proto: int, len: int) -> int {
    w(s[0], s[1]) + w(s[2], s[3]) + w(d[0], d[1]) + w(d[2], d[3]) + 256 * proto + (crate::vx::b16(len, 0) + 256 * crate::vx::b16(len, 1))
}
pub open spec fn ps4_k(s: Seq<u8>, d: Seq<u8>, proto: int, len: int) -> int {
    s[1] as int + s[3] as int + d[1] as int + d[3] as int + proto + len % 256
}
pub proof fn lemma_ps4(s: Seq<u8>, d: Seq<u8>, proto: int, len: int)
    requires 0 <= proto <= 255, 0 <= len <= 65535
    ensures 256 * ps4_le(s, d, proto, len) == ps4_be(s, d, proto, len) + 65535 * ps4_k(s, d, proto, len),
        ps4_le(s, d, proto, len) >= 0, ps4_be(s, d, proto, len) >= 0, ps4_k(s, d, proto, len) >= 0,
        ps4_be(s, d, proto, len) == 0 ==> ps4_k(s, d, proto, len) == 0,
{
    reveal(crate::vx::b16);
    vstd::arithmetic::div_mod::lemma_fundamental_div_mod(len, 256);
}

pub open spec fn a16_be(a: Seq<u8>) -> int {
    wb(a[0], a[1]) + wb(a[2], a[3]) + wb(a[4], a[5]) + wb(a[6], a[7]) + wb(a[8], a[9]) + wb(a[10], a[11]) + wb(a[12], a[13]) + wb(a[14], a[15])
}
pub open spec fn a16_le(a: Seq<u8>) -> int {
    w(a[0], a[1]) + w(a[2], a[3]) + w(a[4], a[5]) + w(a[6], a[7]) + w(a[8], a[9]) + w(a[10], a[11]) + w(a[12], a[13]) + w(a[14], a[15])
}
pub open spec fn a16_k(a: Seq<u8>) -> int {
    a[1] as int + a[3] as int + a[5] as int + a[7] as int + a[9] as int + a[11] as int + a[13] as int + a[15] as int
}
/// IPv6 pseudo header: source, destination, 32 bit upper-layer packet length, three zero bytes + next header
/// (opaque: users only pass the term on to `lemma_to_be`; `lemma_ps6` reveals it)
#[verifier::opaque]
pub open spec fn ps6_be(s: Seq<u8>, d: Seq<u8>, proto: int, len: int) -> int {
    a16_be(s) + a16_be(d) + len / 65536 + len % 65536 + proto
}
/// the four big-endian bytes of a 32 bit length, summed as two native-endian words
pub open spec fn len32_le(len: int) -> int {
    crate::vx::b32(len, 0) + 256 * crate::vx::b32(len, 1) + crate::vx::b32(len, 2) + 256 * crate::vx::b32(len, 3)
}
pub open spec fn ps6_le(s: Seq<u8>, d: Seq<u8>, proto: int, len: int) -> int {
    a16_le(s) + a16_le(d) + 256 * proto + len32_le(len)
}
#[verifier::opaque]
pub open spec fn ps6_k(s: Seq<u8>, d: Seq<u8>, proto: int, len: int) -> int {
    a16_k(s) + a16_k(d) + proto + (len / 65536) % 256 + len % 256
}
pub proof fn lemma_ps6(s: Seq<u8>, d: Seq<u8>, proto: int, len: int)
    requires 0 <= proto <= 255, 0 <= len <= 0xffff_ffff
    ensures 256 * ps6_le(s, d, proto, len) == ps6_be(s, d, proto, len) + 65535 * ps6_k(s, d, proto, len),
        ps6_le(s, d, proto, len) >= 0, ps6_be(s, d, proto, len) >= 0, ps6_k(s, d, proto, len) >= 0,
        ps6_be(s, d, proto, len) == 0 ==> ps6_k(s, d, proto, len) == 0,
{
    reveal(ps6_be); reveal(ps6_k); reveal(crate::vx::b32);
    let hi = len / 65536; let lo = len % 65536;
    vstd::arithmetic::div_mod::lemma_fundamental_div_mod(len, 65536);
    vstd::arithmetic::div_mod::lemma_fundamental_div_mod(hi, 256);
    vstd::arithmetic::div_mod::lemma_fundamental_div_mod(lo, 256);
    // len / 16777216 == hi / 256 and (len / 256) % 256 == lo / 256 and len % 256 == lo % 256
    assert(len / 16777216 == hi / 256 && (len / 256) % 256 == lo / 256 && len % 256 == lo % 256) by {
        let x = len as u32;
        assert((x / 16777216u32) == (x / 65536u32) / 256u32 && (x / 256u32) % 256u32 == (x % 65536u32) / 256u32 && x % 256u32 == (x % 65536u32) % 256u32) by(bit_vector);
    }
}

/// TCP segment with the checksum field (bytes 16, 17) taken as zero (16 is even, so leaving the word out is the same as zeroing it)
pub open spec fn tcp_seg_be(seg: Seq<u8>) -> int { wsum_be_all(seg.subrange(0, 16)) + wsum_be_all(seg.subrange(18, seg.len() as int)) }


// ------------------------------------------------------------------------------------------------------------------
// header fields summed through `to_be_bytes()`: native-endian word(s) of a 16 / 32 bit field and their big-endian value
// ------------------------------------------------------------------------------------------------------------------

/// native-endian word of a 16 bit field whose big-endian bytes are summed
pub open spec fn f16_le(x: int) -> int { crate::vx::b16(x, 0) + 256 * crate::vx::b16(x, 1) }
pub proof fn lemma_f16(x: int)
    requires 0 <= x <= 65535
    ensures 256 * f16_le(x) == x + 65535 * (x % 256), f16_le(x) >= 0, 0 <= x % 256 <= 255,
{
    reveal(crate::vx::b16);
    vstd::arithmetic::div_mod::lemma_fundamental_div_mod(x, 256);
}
/// big-endian value of the two words of a 32 bit field (RFC 1071 sums it as two 16 bit words)
#[verifier::opaque]
pub open spec fn f32_be(x: int) -> int { x / 65536 + x % 65536 }
#[verifier::opaque]
pub open spec fn f32_k(x: int) -> int { (x / 65536) % 256 + x % 256 }
pub proof fn lemma_f32(x: int)
    requires 0 <= x <= 0xffff_ffff
    ensures 256 * len32_le(x) == f32_be(x) + 65535 * f32_k(x), len32_le(x) >= 0, f32_be(x) >= 0, f32_k(x) >= 0, f32_be(x) == 0 ==> f32_k(x) == 0,
{
    reveal(f32_be); reveal(f32_k); reveal(crate::vx::b32);
    let hi = x / 65536; let lo = x % 65536;
    vstd::arithmetic::div_mod::lemma_fundamental_div_mod(x, 65536);
    vstd::arithmetic::div_mod::lemma_fundamental_div_mod(hi, 256);
    vstd::arithmetic::div_mod::lemma_fundamental_div_mod(lo, 256);
    assert(x / 16777216 == hi / 256 && (x / 256) % 256 == lo / 256 && x % 256 == lo % 256) by {
        let y = x as u32;
        assert((y / 16777216u32) == (y / 65536u32) / 256u32 && (y / 256u32) % 256u32 == (y % 65536u32) / 256u32 && y % 256u32 == (y % 65536u32) % 256u32) by(bit_vector);
    }
}

} // verus!
