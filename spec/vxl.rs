//! vxl — broadcast bit-vector lemmas used by the woven accessor contracts (shift/mask range facts).
//! They live in their own module because `broadcast use` of a lemma inside its own module is a cycle.
#[allow(unused_imports)]
use vstd::prelude::*;
verus! {

pub broadcast proof fn l_u8_and(x: u8, m: u8) ensures #[trigger] (x & m) <= m { assert((x & m) <= m) by(bit_vector); }
pub broadcast proof fn l_u16_and(x: u16, m: u16) ensures #[trigger] (x & m) <= m { assert((x & m) <= m) by(bit_vector); }
pub broadcast proof fn l_u32_and(x: u32, m: u32) ensures #[trigger] (x & m) <= m { assert((x & m) <= m) by(bit_vector); }
pub broadcast proof fn l_u64_and(x: u64, m: u64) ensures #[trigger] (x & m) <= m { assert((x & m) <= m) by(bit_vector); }
pub broadcast proof fn l_u8_shr(x: u8, n: u8) requires n < 8 ensures #[trigger] (x >> n) <= 0xffu8 >> n { assert(n < 8 ==> (x >> n) <= 0xffu8 >> n) by(bit_vector); }
pub broadcast proof fn l_u8_shr1(x: u8) ensures #[trigger] (x >> 1u8) <= 127 { assert((x >> 1u8) <= 127) by(bit_vector); }
pub broadcast proof fn l_u8_shr2(x: u8) ensures #[trigger] (x >> 2u8) <= 63 { assert((x >> 2u8) <= 63) by(bit_vector); }
pub broadcast proof fn l_u8_shr3(x: u8) ensures #[trigger] (x >> 3u8) <= 31 { assert((x >> 3u8) <= 31) by(bit_vector); }
pub broadcast proof fn l_u8_shr4(x: u8) ensures #[trigger] (x >> 4u8) <= 15 { assert((x >> 4u8) <= 15) by(bit_vector); }
pub broadcast proof fn l_u8_shr5(x: u8) ensures #[trigger] (x >> 5u8) <= 7 { assert((x >> 5u8) <= 7) by(bit_vector); }
pub broadcast proof fn l_u8_shr6(x: u8) ensures #[trigger] (x >> 6u8) <= 3 { assert((x >> 6u8) <= 3) by(bit_vector); }
pub broadcast proof fn l_u16_shr3(x: u16) ensures #[trigger] (x >> 3u16) <= 0x1fff { assert((x >> 3u16) <= 0x1fff) by(bit_vector); }
pub broadcast proof fn l_u16_shr13(x: u16) ensures #[trigger] (x >> 13u16) <= 7 { assert((x >> 13u16) <= 7) by(bit_vector); }
pub broadcast proof fn l_u32_shr12(x: u32) ensures #[trigger] (x >> 12u32) <= 0xfffff { assert((x >> 12u32) <= 0xfffff) by(bit_vector); }

pub broadcast group bits {
    l_u8_and, l_u16_and, l_u32_and, l_u64_and, l_u8_shr1, l_u8_shr2, l_u8_shr3, l_u8_shr4, l_u8_shr5, l_u8_shr6, l_u16_shr3, l_u16_shr13, l_u32_shr12,
}

} // verus!
